"""Plans for the Lean reference encoder (driver `enc`, grammar in lean/JxlModel/Driver/Enc.lean):
seeded generators of structured, mostly-valid Modular images and the text serialisation."""
import random

PRED_NAMES = ["Zero", "West", "North", "AvgWN", "Select", "Gradient", "SelfCorrecting", "NE", "NW",
              "WW", "AvgWNW", "AvgNNW", "AvgNNE", "AvgAll"]


def chan_str(w, h, data):
    return f"{w} {h} " + " ".join(map(str, data))


def tree_str(t):
    if t[0] == "L":
        _, ctx, pred, off, mul = t
        return f"L {ctx} {pred} {off} {mul}"
    _, prop, val, l, r = t
    return f"D {prop} {val} {tree_str(l)} {tree_str(r)}"


def tree_leaves(t):
    return [t] if t[0] == "L" else tree_leaves(t[3]) + tree_leaves(t[4])


def tr_str(t):
    if t[0] == "rct":
        return f"rct {t[1]} {t[2]}"
    if t[0] == "pal":
        return "pal " + " ".join(map(str, t[1:6]))
    ps = t[1]
    return f"sq {len(ps)} " + " ".join(f"{int(h)} {int(i)} {b} {n}" for (h, i, b, n) in ps)


def blend_str(b):
    return f"{b.get('mode', 0)} {b.get('alpha', 0)} {int(b.get('clamp', False))} {b.get('source', 0)}"


def gen_features(rng, w, h, noise=True, splines=True):
    """(noise LUT | None, splines | None) for a frame of w x h: valid per Splines::parse (fewer splines than
    pixels/4, control points distinct, inside or around the frame) -- the `noise` / `splines` plan items"""
    lut = [rng.choice([0, rng.randrange(1024), rng.randrange(200)]) for _ in range(8)] if noise else None
    sp = None
    if splines and w * h >= 16:
        sp = []
        for _ in range(rng.randint(1, min(3, w * h // 4 - 1))):
            coeffs = [0] * 128
            for c in range(3):
                for k in range(rng.randint(1, 5)):
                    coeffs[32 * c + k] = rng.randint(-60, 60)
            coeffs[96] = rng.randint(3, 60)                 # sigma: a visible width
            for k in range(1, rng.randint(1, 4)):
                coeffs[96 + k] = rng.randint(-10, 10)
            deltas = []
            for _p in range(rng.randint(1, 5)):
                deltas.append((rng.randint(-max(2, w // 4), max(2, w // 4)) or 1, rng.randint(-max(2, h // 4), max(2, h // 4))))
            sp.append({"start": (rng.randrange(w), rng.randrange(h)), "deltas": deltas, "coeffs": coeffs})
        sp = (rng.randint(-3, 6), sp)
    return lut, sp


def patches_str(ps):
    """`patches NP { REF X0 Y0 W H NT { X Y {MODE ALPHA CLAMP}*(1+nec) }*NT }*NP`; a patch is
    {"ref", "x0", "y0", "w", "h", "targets": [{"x", "y", "blend": [(mode, alpha, clamp)]}]}"""
    s = ["patches", len(ps)]
    for p in ps:
        s += [p["ref"], p["x0"], p["y0"], p["w"], p["h"], len(p["targets"])]
        for t in p["targets"]:
            s += [t["x"], t["y"]]
            for (m, a, c) in t["blend"]:
                s += [m, a, int(c)]
    return " ".join(map(str, s))


def frame_str(img, f):
    nec = len(img["ecs"])
    s = ["frame", f.get("ty", 0), f.get("ups", 1)]
    s += [f.get("ecups", [1] * nec)[i] for i in range(nec)]
    s += [f.get("gshift", 1), int(f.get("have_crop", False)), f.get("x0", 0), f.get("y0", 0),
          f.get("w", 0), f.get("h", 0), blend_str(f.get("blend", {}))]
    ecb = f.get("ecblend", [{}] * nec)
    s += [blend_str(ecb[i]) for i in range(nec)]
    s += [f.get("dur", 0), int(f.get("is_last", True)), f.get("save_ref", 0), int(f.get("sbct", False)),
          int(f.get("gab", False)), f.get("epf", 0)]
    wp = f.get("wp")
    s += ["wp", "1"] if not wp else ["wp", "0"] + list(wp)
    trs = f.get("tr", [])
    s += ["tr", len(trs)] + [tr_str(t) for t in trs]
    pals = f.get("pals", [])
    s += ["pals", len(pals)] + [chan_str(*p) for p in pals]
    s += ["tree", tree_str(f.get("tree", ("L", 0, 0, 0, 1)))]
    s += ["coded", int(f.get("coded", False))]
    if f.get("ent"):
        s += ["ent", f["ent"]]
    if f.get("tocperm") is not None:
        s += ["tocperm", f["tocperm"]]
    if f.get("patches"):
        s += [patches_str(f["patches"])]
    if f.get("splines"):
        # (quant_adjust, [{"start": (x, y), "deltas": [(dx, dy)], "coeffs": 128 ints}])
        qa, sp = f["splines"]
        s += ["splines", qa, len(sp)]
        for q in sp:
            s += [q["start"][0], q["start"][1], len(q["deltas"])] + [v for d in q["deltas"] for v in d] + list(q["coeffs"])
    if f.get("noise"):
        s += ["noise"] + list(f["noise"])
    s += ["chans", len(f["chans"])] + [chan_str(*c) for c in f["chans"]]
    return " ".join(map(str, s))


def plan_line(img, frames):
    s = ["img", img["w"], img["h"], img.get("bits", 8), img.get("float_exp", 0), img.get("orient", 1),
         int(img.get("gray", False)), int(img.get("buf16", True)), len(img["ecs"])]
    for e in img["ecs"]:
        s += [e.get("ty", 0), e.get("dim_shift", 0), e.get("bits", img.get("bits", 8)), int(e.get("alpha_assoc", False))]
    an = img.get("anim")
    s += [0] if not an else [1] + list(an)
    if img.get("icc_profile"):              # (ans, plan mode, profile bytes): embedded through the ICC encoder
        a, m, prof = img["icc_profile"]
        s += ["icc", int(a), m, bytes(prof).hex()]
    if img.get("icc"):                      # optional (C15): already encoded ICC byte stream
        s += ["iccraw", len(img["icc"])] + list(img["icc"])
    if img.get("xyb"):                      # xyb_encoded (C12: narrow = wide on the decoder's own XYB -> RGB path)
        s += ["xyb"]
    for k, e in enumerate(img["ecs"]):      # optional (C15): f16 bit patterns r g b solidity
        if e.get("spot"):
            s += ["spot", k] + list(e["spot"])
    s += ["frames", len(frames)] + [frame_str(img, f) for f in frames]
    return " ".join(map(str, s))


# ---------------------------------------------------------------------------------------------
def parse_enc_output(line):
    """'ok <hex> N frame numGroups npaths paths.. nch {w h data}..' -> (hex, [frame dicts])"""
    w = line.split()
    if not w or w[0] != "ok":
        return None
    hexs, n = w[1], int(w[2])
    i = 3
    frames = []
    for _ in range(n):
        assert w[i] == "frame"
        ng, npth = int(w[i + 1]), int(w[i + 2])
        paths = w[i + 3:i + 3 + npth]
        ent = 0
        if paths and paths[0].startswith("ent"):
            ent = int(paths[0][3:]); paths = paths[1:]
        i += 3 + npth
        nch = int(w[i]); i += 1
        chans = []
        for _ in range(nch):
            cw, ch = int(w[i]), int(w[i + 1])
            data = list(map(int, w[i + 2:i + 2 + cw * ch]))
            i += 2 + cw * ch
            chans.append((cw, ch, data))
        assert w[i] == "model"
        if w[i + 1] == "none":
            model = None; i += 2
        elif w[i + 1] == "same":
            model = chans; i += 2
        else:
            nm = int(w[i + 1]); i += 2
            model = []
            for _ in range(nm):
                cw, ch = int(w[i]), int(w[i + 1])
                data = list(map(int, w[i + 2:i + 2 + cw * ch]))
                i += 2 + cw * ch
                model.append((cw, ch, data))
        frames.append({"num_groups": ng, "paths": paths, "chans": chans, "model": model, "ent": ent})
    return hexs, frames


def parse_img_output(line):
    """harness `img decode` answer -> ('ok', [keyframes]) where keyframe = list of (kind,w,h,data) or ('err',..)"""
    w = line.split()
    if not w or w[0] != "ok":
        return (" ".join(w[:3]) if w else "empty"), None
    n = int(w[1])
    i = 2
    kfs = []
    for _ in range(n):
        if w[i] == "kerr":
            kfs.append(("kerr", w[i + 1])); i += 2
            continue
        nch = int(w[i + 1]); i += 2
        chans = []
        for _ in range(nch):
            kind, cw, ch = w[i], int(w[i + 1]), int(w[i + 2])
            data = list(map(int, w[i + 3:i + 3 + cw * ch]))
            i += 3 + cw * ch
            chans.append((kind, cw, ch, data))
        kfs.append(chans)
    return "ok", kfs


# ---------------------------------------------------------------------------------------------
def gen_pixels(rng, w, h, lo, hi, style=None):
    style = style or rng.choice(["noise", "smooth", "flat", "stripes", "sparse", "edges"])
    span = hi - lo
    out = []
    if style == "flat":
        v = rng.randint(lo, hi)
        return [v] * (w * h)
    if style == "noise":
        return [rng.randint(lo, hi) for _ in range(w * h)]
    if style == "sparse":
        base = rng.randint(lo, hi)
        return [base if rng.random() < 0.85 else rng.randint(lo, hi) for _ in range(w * h)]
    if style == "edges":
        return [rng.choice([lo, hi, lo + 1 if span else lo, hi - 1 if span else hi]) for _ in range(w * h)]
    a, b, c = rng.uniform(-3, 3), rng.uniform(-3, 3), rng.randint(lo, hi)
    n = max(1, span // 16)
    for y in range(h):
        for x in range(w):
            if style == "smooth":
                v = int(c + a * x + b * y) + rng.randint(-n, n) // 4
            else:
                v = c + ((x // max(1, int(abs(a)) + 1)) % 2) * (span // 2)
            out.append(min(hi, max(lo, v)))
    return out


def gen_tree(rng, depth, nclusters, value_range, nprev=0, preds=None, allow_static=True):
    """random MA tree; leaf clusters are fixed up afterwards to be hole-free"""
    def go(d):
        if d == 0 or rng.random() < 0.3:
            pred = rng.choice(preds) if preds else rng.randrange(14)
            off = rng.choice([0, 0, 0, rng.randint(-3, 3)])
            return ("L", rng.randrange(nclusters), pred, off, 1)
        props = [2, 3, 4, 5, 6, 7, 8, 9, 10, 11, 12, 13, 14, 15]
        if allow_static:
            props += [0, 1]
        if nprev:
            props += [16 + k for k in range(4 * nprev)] * 2
        p = rng.choice(props)
        lo, hi = value_range
        if p in (0, 1):
            v = rng.randint(-1, 3)
        elif p in (2, 3):
            v = rng.randint(-1, 12)
        else:
            v = rng.choice([rng.randint(-hi, hi), rng.randint(-4, 4), 0])
        return ("D", p, v, go(d - 1), go(d - 1))
    t = go(depth)
    # make clusters hole-free: relabel in order of first appearance
    leaves = tree_leaves(t)
    remap = {}
    for l in leaves:
        remap.setdefault(l[1], len(remap))

    def relabel(t):
        if t[0] == "L":
            return ("L", remap[t[1]], t[2], t[3], t[4])
        return ("D", t[1], t[2], relabel(t[3]), relabel(t[4]))
    return relabel(t)


def gen_lz_const_channel_image(rng):
    """LZ77 on, a constant first channel alone in cluster 0 coded with literals only (entropy modes 7 / 8:
    a single-symbol histogram although LZ77 is enabled), and a later channel in the same group that
    starts with the same value, so that its first copy reaches back into the constant channel."""
    w, h = rng.randint(3, 24), rng.randint(1, 12)
    bits = rng.choice([8, 8, 12, 16])
    hi = (1 << bits) - 1
    gray = rng.random() < 0.5
    nch = 2 if gray else 3
    v = rng.choice([0, 1, 7, hi // 2, hi])
    ecs = [{"ty": 1, "dim_shift": 0, "bits": bits, "alpha_assoc": False}] if gray else []
    img = {"w": w, "h": h, "bits": bits, "gray": gray, "buf16": bits <= 12 and rng.random() < 0.7, "ecs": ecs,
           "orient": 1, "anim": None}
    chans = [(w, h, [v] * (w * h))]
    for _ in range(nch - 1):
        lead = rng.randint(3, min(w * h, 12))
        data = [v] * lead + [rng.randint(0, hi) for _ in range(w * h - lead)]
        if rng.random() < 0.5:                         # another run of the constant later on
            k = rng.randrange(len(data))
            data[k:k + 5] = [v] * len(data[k:k + 5])
        chans.append((w, h, data))
    # channel 0 -> leaf of cluster 0 (Zero predictor), the others -> cluster 1 (Zero predictor too: the
    # tokens of equal samples are equal, so the LZ77 matcher finds the copy across the channel boundary)
    tree = ("D", 0, 0, ("L", 1, 0, 0, 1), ("L", 0, 0, 0, 1))
    frame = {"gshift": rng.randrange(4), "chans": chans, "tr": [], "pals": [], "tree": tree, "wp": None,
             "ent": rng.choice([7, 8])}
    return img, [frame], "lz77-constant-channel"


def gen_dimshift_image(rng):
    """extra channels stored at 1/2, 1/4 or 1/8 resolution (`dim_shift`): in a multi-group frame a small
    channel after a larger-than-group one goes to the LF-group / pass-group streams, not to the global
    stream. The decoder upsamples such channels to floats, so only the full-resolution channels can be
    compared sample by sample."""
    big = rng.random() < 0.6
    if big:
        w, h, gshift = rng.choice([130, 200, 257, 300]), rng.choice([129, 150, 257]), 0
    else:
        w, h, gshift = rng.randint(1, 40), rng.randint(1, 40), rng.randrange(4)
    bits = rng.choice([8, 8, 10, 12, 16])
    gray = rng.random() < 0.3
    ecs = []
    for _ in range(rng.choice([1, 1, 2])):
        ecs.append({"ty": rng.choice([0, 1, 3]), "dim_shift": rng.choice([1, 1, 2, 3]), "bits": bits, "alpha_assoc": False})
    if rng.random() < 0.3:
        ecs.insert(rng.randrange(len(ecs) + 1), {"ty": 1, "dim_shift": 0, "bits": bits, "alpha_assoc": False})
    img = {"w": w, "h": h, "bits": bits, "gray": gray, "buf16": bits <= 12 and rng.random() < 0.7, "ecs": ecs,
           "orient": 1, "anim": None}
    hi = (1 << bits) - 1
    chans = [(w, h, gen_pixels(rng, w, h, 0, hi)) for _ in range(1 if gray else 3)]
    for e in ecs:
        cw, ch = -(-w >> e["dim_shift"]), -(-h >> e["dim_shift"])
        chans.append((cw, ch, gen_pixels(rng, cw, ch, 0, hi)))
    frame = {"gshift": gshift, "chans": chans, "tr": [], "pals": [],
             "tree": gen_tree(rng, rng.choice([0, 1, 2]), rng.randint(1, 4), (0, hi), nprev=0), "wp": None}
    if rng.random() < 0.3:
        frame["tocperm"] = rng.randrange(1000)
    return img, [frame], "ec-dim-shift" + ("-multi-group" if big else "")


def gen_modular_image(rng, opts=None):
    """one single-frame Modular image plan: (img, [frame]); the generator walks channel layouts,
    bit depths, trees, predictors, weighted-predictor parameters and transforms"""
    o = opts or {}
    big = o.get("multi_group", False)
    if big:
        w = rng.choice([129, 130, 200, 256, 257, 300])
        h = rng.choice([1, 5, 129, 140, 257])
        gshift = 0
    else:
        w = rng.choice([1, 2, 3, 4, 5, 6, 7, 8, 9, 15, 16, 17, 31, 32, 33, rng.randint(1, 40)])
        h = rng.choice([1, 2, 3, 4, 5, 8, 9, 16, 17, rng.randint(1, 40)])
        gshift = rng.randrange(4)
    bits = o.get("bits") or rng.choice([1, 2, 5, 8, 8, 8, 10, 12, 12, 13, 16, 16, 24, 31])
    gray = rng.random() < 0.3
    nec = rng.choice([0, 0, 0, 1, 1, 2])
    ecs = []
    for _ in range(nec):
        ecs.append({"ty": rng.choice([0, 0, 1, 3, 4, 6, 15, 16]), "dim_shift": 0,
                    "bits": bits, "alpha_assoc": rng.random() < 0.3})
    buf16 = bits <= 12 if o.get("buf16") is None else o["buf16"]
    if bits <= 12 and rng.random() < 0.25:
        buf16 = False
    img = {"w": w, "h": h, "bits": bits, "gray": gray, "buf16": buf16, "ecs": ecs,
           "orient": rng.choice([1, 1, 1] + list(range(1, 9)))}
    ncol = 1 if gray else 3
    nch = ncol + nec
    lo, hi = 0, (1 << bits) - 1
    if bits >= 24 and rng.random() < 0.5:
        lo = hi - 255                         # stay near the top of the range
    chans = [(w, h, gen_pixels(rng, w, h, lo, hi)) for _ in range(nch)]
    # transforms
    trs, pals = [], []
    r = rng.random()
    if not gray and r < 0.35:
        trs.append(("rct", 0, rng.randrange(42)))
    if r > 0.8 and w * h > 1:
        if rng.random() < 0.5:
            trs.append(("sq", []))            # default parameters
        else:
            ps = []
            for _ in range(rng.randint(1, 3)):
                ps.append((rng.random() < 0.5, True, 0, nch))
            trs.append(("sq", ps))
    elif 0.6 < r <= 0.8 and bits <= 16:
        # explicit palette on the first 1 or 3 channels
        numc = 1 if gray or rng.random() < 0.3 else 3
        nbc = rng.randint(1, 12)
        entries = [[rng.randint(lo, hi) for _ in range(numc)] for _ in range(nbc)]
        pix = [rng.randrange(nbc) for _ in range(w * h)]
        for c in range(numc):
            chans[c] = (w, h, [entries[i][c] for i in pix])
        paldata = [entries[k][c] for c in range(numc) for k in range(nbc)]
        trs.append(("pal", 0, numc, nbc, 0, rng.randrange(14)))
        pals.append((nbc, numc, paldata))
    nprev = min(2, nch - 1)
    tree = gen_tree(rng, rng.choice([0, 1, 2, 3, 4]), rng.randint(1, 6), (lo, hi), nprev=nprev)
    wp = None
    if rng.random() < 0.3:
        wp = [rng.randrange(32) for _ in range(7)] + [rng.randrange(16) for _ in range(4)]
    frame = {"gshift": gshift, "chans": chans, "tr": trs, "pals": pals, "tree": tree, "wp": wp,
             "ent": (o.get("ent") if o.get("ent") is not None else rng.choice([0, 0, 1, 1, 2, 2, 3, 4, 5, 5, 6, 6]))}
    if rng.random() < 0.25:
        frame["tocperm"] = rng.randrange(1000)      # permuted TOC (identity-sized for single-section frames)
    return img, [frame]


def gen_fast_lossless_image(rng, bits=None, styles=None):
    """single-leaf gradient trees with LZ77 runs of distance 1: the shape that switches the decoder
    to its RLE 'fast lossless' path (jxl-modular image.rs decode_fast_lossless)"""
    w, h = rng.choice([1, 2, 3, 7, 16, 33, 64]), rng.choice([1, 2, 5, 9, 20])
    bits = bits or rng.choice([8, 8, 10, 12, 16])
    gray = rng.random() < 0.4
    ncol = 1 if gray else 3
    img = {"w": w, "h": h, "bits": bits, "gray": gray, "buf16": bits <= 12 and rng.random() < 0.7, "ecs": []}
    lo, hi = 0, (1 << bits) - 1
    chans = [(w, h, gen_pixels(rng, w, h, lo, hi, rng.choice(styles or ["flat", "sparse", "stripes", "smooth", "noise"])))
             for _ in range(ncol)]
    ncl = rng.randint(1, 3)
    if rng.random() < 0.5 or ncol == 1:
        tree = ("L", 0, 5, 0, 1)
    else:
        tree = relabel_clusters(("D", 0, 0, ("L", rng.randrange(ncl), 5, 0, 1),
                                 ("D", 0, -1, ("L", rng.randrange(ncl), 5, 0, 1), ("L", rng.randrange(ncl), 5, 0, 1))))
    frame = {"gshift": rng.randrange(4), "chans": chans, "tr": [], "pals": [], "tree": tree, "wp": None,
             "ent": rng.choice([3, 3, 4])}
    return img, [frame], "fast-lossless"


def gen_chain_tree(rng, prop, values, leaf_fn, redundant=False):
    """decision chain on one property (what `try_compile_to_table` turns into a lookup table):
    a balanced search tree over sorted `values`; `redundant` inserts a decision whose value lies
    outside the range implied by its ancestors"""
    vals = sorted(set(values))

    def build(lo, hi):
        if lo > hi:
            return leaf_fn()
        mid = (lo + hi) // 2
        # property > value -> left
        return ("D", prop, vals[mid], build(mid + 1, hi), build(lo, mid - 1))
    t = build(0, len(vals) - 1)
    if redundant:
        # wrap a leaf position with a decision that can never go left/right
        def inject(t, depth):
            if t[0] == "L" or depth == 0:
                v = rng.choice([vals[-1] + rng.randint(1, 50), vals[0] - rng.randint(1, 50)])
                return ("D", prop, v, leaf_fn(), t if t[0] == "L" else t)
            if rng.random() < 0.5:
                return ("D", t[1], t[2], inject(t[3], depth - 1), t[4])
            return ("D", t[1], t[2], t[3], inject(t[4], depth - 1))
        t = inject(t, rng.randint(1, 3))
    return t


def relabel_clusters(t):
    remap = {}
    for l in tree_leaves(t):
        remap.setdefault(l[1], len(remap))

    def go(t):
        if t[0] == "L":
            return ("L", remap[t[1]], t[2], t[3], t[4])
        return ("D", t[1], t[2], go(t[3]), go(t[4]))
    return go(t)


def gen_table_image(rng, kind=None, bits=None, styles=None):
    """images whose trees hit the table-compilation paths of the flattener"""
    kind = kind or rng.choice(["simple-table", "gradient-table", "mixed-table", "redundant",
                               "prevchan-table", "wide-span"])
    w, h = rng.choice([1, 2, 3, 5, 8, 9, 17, 24]), rng.choice([1, 2, 3, 4, 7, 12, 20])
    bits = bits or rng.choice([8, 8, 10, 12, 16])
    lo, hi = 0, (1 << bits) - 1
    gray = kind != "prevchan-table" and rng.random() < 0.4
    ncol = 1 if gray else 3
    img = {"w": w, "h": h, "bits": bits, "gray": gray, "buf16": bits <= 12 and rng.random() < 0.7, "ecs": []}
    chans = [(w, h, gen_pixels(rng, w, h, lo, hi, rng.choice(styles) if styles else None)) for _ in range(ncol)]
    nvals = rng.randint(3, 9)
    span = rng.choice([8, 64, 600, 1020, 1022, 1023, 1024, 3000]) if kind == "wide-span" else rng.choice([6, 40, 300])
    base = rng.randint(-span, hi // 2)
    values = [base + rng.randint(0, span) for _ in range(nvals)]
    if kind == "wide-span":
        values = [base, base + span] + values[2:]
    ncl = rng.randint(1, 6)
    if kind == "gradient-table":
        prop = 9
        leaf = lambda: ("L", rng.randrange(ncl), 5, 0, 1)
    elif kind == "simple-table":
        prop = rng.choice([2, 3, 4, 5, 6, 7, 8, 9, 10, 11, 12, 13, 14, 15])
        p0, off0 = rng.randrange(14), rng.choice([0, 0, 2, -1])
        leaf = lambda: ("L", rng.randrange(ncl), p0, off0, 1)
    elif kind == "prevchan-table":
        prop = 16 + rng.randrange(8)
        p0 = rng.randrange(14)
        leaf = lambda: ("L", rng.randrange(ncl), p0, 0, 1)
    else:
        prop = rng.choice([2, 3, 4, 5, 6, 7, 8, 9, 10, 11, 12, 13, 14, 15, 16, 17, 18, 19])
        leaf = lambda: ("L", rng.randrange(ncl), rng.randrange(14), rng.choice([0, 0, 1]), 1)
    tree = gen_chain_tree(rng, prop, values, leaf, redundant=(kind == "redundant"))
    if rng.random() < 0.3:
        # put the chain under a static decision on the channel index
        other = gen_tree(rng, 2, ncl, (lo, hi), nprev=0)
        tree = ("D", 0, rng.randint(0, 1), tree, other)
    tree = relabel_clusters(tree)
    frame = {"gshift": rng.randrange(4), "chans": chans, "tr": [], "pals": [], "tree": tree, "wp": None,
             "ent": rng.choice([0, 1, 2, 3, 4, 5, 6])}
    return img, [frame], kind


def gen_palette_image(rng):
    """palette images in the coded domain: explicit, implicit (index >= nb_colours) and delta
    (index < nb_deltas, incl. negative) entries, any delta predictor"""
    w, h = rng.choice([1, 2, 3, 5, 8, 13]), rng.choice([1, 2, 3, 6, 11])
    bits = rng.choice([8, 8, 10, 12, 16, 16, 24, 25, 28, 31])
    lo, hi = 0, (1 << bits) - 1
    gray = rng.random() < 0.3
    ncol = 1 if gray else 3
    numc = 1 if gray or rng.random() < 0.25 else 3
    nbc = rng.choice([rng.randint(0, 10), rng.randint(0, 10), rng.randint(11, 40)])
    nbd = rng.randint(0, nbc) if rng.random() < 0.7 else 0
    dpred = rng.randrange(14)
    mode = rng.choice(["inrange", "inrange", "implicit", "negative", "all"])
    def idx():
        if mode == "inrange" and nbc > 0:
            return rng.randrange(nbc)
        if mode == "implicit":
            return nbc + rng.randrange(64 + 125) if rng.random() < 0.5 else (rng.randrange(nbc) if nbc else nbc)
        if mode == "negative":
            return -rng.randint(1, 143) if rng.random() < 0.4 else (rng.randrange(nbc) if nbc else 0)
        return rng.randint(-150, nbc + 200)
    index_chan = (w, h, [idx() for _ in range(w * h)])
    pal = (nbc, numc, [rng.randint(lo, hi) for _ in range(nbc * numc)])
    rest = [(w, h, gen_pixels(rng, w, h, lo, hi)) for _ in range(ncol - numc)]
    img = {"w": w, "h": h, "bits": bits, "gray": gray, "buf16": bits <= 12 and rng.random() < 0.6, "ecs": []}
    tree = gen_tree(rng, rng.choice([0, 1, 2]), rng.randint(1, 4), (lo, hi), nprev=0)
    wp = None if rng.random() < 0.6 else [rng.randrange(32) for _ in range(7)] + [rng.randrange(16) for _ in range(4)]
    frame = {"gshift": rng.randrange(4), "chans": [pal, index_chan] + rest, "coded": True,
             "tr": [("pal", 0, numc, nbc, nbd, dpred)], "pals": [], "tree": tree, "wp": wp,
             "ent": rng.choice([0, 1, 2, 3, 4, 5, 5, 6, 6])}
    return img, [frame], f"palette-{mode}-d{int(nbd>0)}"
