"""Shared machinery of the checks: building the Lean model and the Rust harness from the current
trees, auditing proofs, running model and implementation on the same lines, evidence, verdicts."""
import fcntl, hashlib, json, os, random, re, subprocess, sys, time

VERIF = os.path.dirname(os.path.dirname(os.path.abspath(__file__)))
LEAN = os.path.join(VERIF, "lean")
HARNESS = os.path.join(VERIF, "harness")
REPO = os.environ.get("VERIF_REPO", "/repo")
WORK = os.path.join(VERIF, "work")
EVID = os.path.join(VERIF, "evidence")
MODEL_EXE = os.path.join(LEAN, ".lake", "build", "bin", "jxlmodel")
ALLOWED_AXIOMS = {"propext", "Classical.choice", "Quot.sound"}
FORBIDDEN = re.compile(r"\bsorry\b|\badmit\b|^\s*axiom\s|native_decide|bv_decide|implemented_by|\bunsafe\s|maxHeartbeats\s+0\b")
ENV = dict(os.environ, CARGO_NET_OFFLINE="true")

TRUSTED_BASE = [
    "Lean 4.33.0 kernel (lake build); thorough tier also leanchecker",
    "axioms allowed: propext, Classical.choice, Quot.sound (audited with #print axioms on every run)",
    "tools/translate.py for generated Lean (Gen/*.lean), exercised by the correspondence run",
    "the correspondence harness (/verif/harness, tools/props/*.py): differential testing of model vs /repo",
    "rustc/cargo, Rust std, the machine's IEEE-754 arithmetic",
]


def sh(cmd, cwd=None, timeout=None, input=None, env=None):
    t0 = time.time()
    p = subprocess.run(cmd, cwd=cwd, input=input, capture_output=True, text=True, timeout=timeout,
                       env=env or ENV, shell=isinstance(cmd, str))
    return p.returncode, p.stdout, p.stderr, time.time() - t0


class Lock:
    def __init__(self, name="build"):
        os.makedirs(WORK, exist_ok=True)
        self.path = os.path.join(WORK, "." + name + ".lock")

    def __enter__(self):
        self.f = open(self.path, "w")
        fcntl.flock(self.f, fcntl.LOCK_EX)
        return self

    def __exit__(self, *a):
        fcntl.flock(self.f, fcntl.LOCK_UN)
        self.f.close()


class Ctx:
    def __init__(self, prop, tier, seed):
        self.prop, self.tier, self.seed = prop, tier, seed
        self.t0 = time.time()
        self.rng = random.Random(seed)
        self.work = os.path.join(WORK, f"{prop}-{tier}")
        os.makedirs(self.work, exist_ok=True)
        os.makedirs(os.path.join(EVID, "replay"), exist_ok=True)
        self.violations = []          # (replay_path, no_failing_input: bool)
        self.known_hits = []          # strings
        self.obligations = 0
        self.discharged = 0
        self.theorems = {}            # name -> axioms list
        self.failed_obligations = []  # names / messages
        self.cov = {"evaluations": 0, "distinct_nontrivial": 0, "rule": "", "samples": []}
        self.assumptions = []
        self.notes = {}
        self.checker_cmd = ""
        self.distinct = set()
        self.dist = {}                # distribution counters

    quick = property(lambda self: self.tier == "quick")

    def count(self, key, n=1):
        self.dist[key] = self.dist.get(key, 0) + n

    def case(self, key, nontrivial=True):
        """register one explored case; key identifies it for distinctness"""
        self.cov["evaluations"] += 1
        if nontrivial:
            h = hashlib.sha1(repr(key).encode()).hexdigest()[:16]
            self.distinct.add(h)

    def sample(self, s, limit=6):
        if len(self.cov["samples"]) < limit:
            self.cov["samples"].append(s)

    # ---- findings ---------------------------------------------------------------------------
    def known(self):
        p = os.path.join(VERIF, "known_findings.json")
        if not os.path.exists(p):
            return []
        return [k for k in json.load(open(p)).get("known", []) if k["property"] == self.prop]

    def violation(self, kind, detail, replay, no_failing_input=False, key=None):
        """report a violation unless `key` matches a listed known finding"""
        if key is not None:
            for k in self.known():
                if k["key"] == key or (k.get("key_regex") and re.search(k["key_regex"], key)):
                    msg = f"KNOWN-FINDING: property={self.prop} {k['what']} [{key}]"
                    if msg not in self.known_hits:
                        self.known_hits.append(msg)
                        print(msg, flush=True)
                    return False
        body = {"property": self.prop, "kind": kind, "detail": detail, "replay": replay,
                "seed": self.seed, "tier": self.tier, "key": key,
                "no_failing_input_found": no_failing_input}
        h = hashlib.sha1(json.dumps(body, sort_keys=True, default=str).encode()).hexdigest()[:12]
        path = os.path.join(EVID, "replay", f"{self.prop}-{h}.json")
        json.dump(body, open(path, "w"), indent=1, default=str)
        if len(self.violations) < 20:
            line = f"VIOLATION property={self.prop} replay={path}"
            if no_failing_input:
                line += " no-failing-input-found"
            print(line, flush=True)
        self.violations.append((path, no_failing_input))
        return True

    # ---- Lean side --------------------------------------------------------------------------
    def lean_build(self, modules, exe=True):
        """build property modules (+ the driver). Returns True if all built."""
        targets = list(modules) + (["jxlmodel"] if exe else [])
        self.checker_cmd = f"cd {LEAN} && lake build " + " ".join(targets)
        with Lock():
            rc, out, err, dt = sh(["lake", "build"] + targets, cwd=LEAN, timeout=3600)
        self.notes["lake_build_s"] = round(dt, 1)
        if rc != 0:
            errs = [l for l in (out + err).splitlines() if l.startswith("error:")]
            self.failed_obligations += errs[:20] or ["lake build failed"]
            open(os.path.join(self.work, "lake.log"), "w").write(out + err)
            return False
        return True

    def prop_theorems(self, module):
        """names (fully qualified) of the property theorems `Cxx_*` in a Props module"""
        path = os.path.join(LEAN, module.replace(".", "/") + ".lean")
        src = open(path).read()
        src_nc = re.sub(r"/-.*?-/", lambda m: "\n" * m.group(0).count("\n"), src, flags=re.S)
        src_nc = re.sub(r"--[^\n]*", "", src_nc)
        ns, names = [], []
        for line in src_nc.splitlines():
            m = re.match(r"\s*namespace\s+(\S+)", line)
            if m:
                ns.append(m.group(1))
                continue
            m = re.match(r"\s*end\s+(\S+)", line)
            if m and ns and ns[-1] == m.group(1):
                ns.pop()
                continue
            m = re.match(r"\s*(?:private\s+|protected\s+)?theorem\s+(" + self.prop + r"_[A-Za-z0-9_'.]+)", line)
            if m:
                names.append(".".join(ns + [m.group(1)]))
        return names

    def forbidden_tokens(self):
        hits = []
        for root, _, files in os.walk(os.path.join(LEAN, "JxlModel")):
            for f in files:
                if not f.endswith(".lean"):
                    continue
                p = os.path.join(root, f)
                src = open(p).read()
                src = re.sub(r"/-.*?-/", lambda m: "\n" * m.group(0).count("\n"), src, flags=re.S)
                for i, line in enumerate(src.splitlines(), 1):
                    line = re.sub(r"--.*", "", line)
                    line = re.sub(r'"[^"]*"', '""', line)
                    if FORBIDDEN.search(line):
                        hits.append(f"{os.path.relpath(p, LEAN)}:{i}: {line.strip()[:80]}")
        return hits

    def audit(self, modules, update_lock=False):
        """#print axioms and #check for every property theorem; compare statements with the lock"""
        names = []
        for m in modules:
            names += self.prop_theorems(m)
        self.obligations += len(names)
        src = "".join(f"import {m}\n" for m in modules)
        src += "set_option format.width 100000\n"
        for n in names:
            src += f'#print axioms {n}\n#check @{n}\n'
        f = os.path.join(self.work, "audit.lean")
        open(f, "w").write(src)
        rc, out, err, dt = sh(["lake", "env", "lean", f], cwd=LEAN, timeout=1800)
        self.notes["audit_s"] = round(dt, 1)
        axioms, stmts = {}, {}
        blocks = re.split(r"(?m)^(?=')|^(?=@)", out)
        text = out
        for n in names:
            m = re.search(r"'" + re.escape(n) + r"' depends on axioms: \[([^\]]*)\]", text, re.S)
            if m:
                axioms[n] = [a.strip() for a in m.group(1).replace("\n", " ").split(",") if a.strip()]
            elif re.search(r"'" + re.escape(n) + r"' does not depend on any axioms", text):
                axioms[n] = []
            m = re.search(r"(?m)^@?" + re.escape(n) + r" : (.*(?:\n[ \t]+.*)*)$", text)
            if m:
                stmts[n] = " ".join(m.group(1).split())
        lockp = os.path.join(LEAN, "statements.lock")
        lock = json.load(open(lockp)) if os.path.exists(lockp) else {}
        for n in names:
            if n not in axioms:
                self.failed_obligations.append(f"{n}: not checked ({(err or out)[-300:]})")
                continue
            bad = [a for a in axioms[n] if a not in ALLOWED_AXIOMS]
            if bad:
                self.failed_obligations.append(f"{n}: uses axioms {bad}")
                continue
            if update_lock:
                lock[n] = stmts.get(n, "")
            elif not stmts.get(n):
                self.failed_obligations.append(f"{n}: statement could not be read back from #check")
                continue
            elif n in lock and lock[n] != stmts.get(n, ""):
                self.failed_obligations.append(f"{n}: statement differs from lean/statements.lock")
                continue
            elif n not in lock:
                self.failed_obligations.append(f"{n}: statement not in lean/statements.lock (run tools/check.py {self.prop} --update-lock)")
                continue
            self.theorems[n] = axioms[n]
            self.discharged += 1
        if update_lock:
            json.dump(dict(sorted(lock.items())), open(lockp, "w"), indent=1)
        hits = self.forbidden_tokens()
        if hits:
            self.failed_obligations += ["forbidden token: " + h for h in hits]
        return not self.failed_obligations

    def leanchecker(self, modules):
        for m in modules:
            rc, out, err, dt = sh(["lake", "env", "leanchecker", m], cwd=LEAN, timeout=3600)
            self.notes[f"leanchecker {m}"] = "ok" if rc == 0 else (out + err)[-300:]
            if rc != 0:
                self.failed_obligations.append(f"leanchecker rejects {m}")

    # ---- Rust side --------------------------------------------------------------------------
    def cargo_build(self, bins, release=False):
        cmd = ["cargo", "build", "--offline"] + (["--release"] if release else [])
        for b in bins:
            cmd += ["--bin", b]
        with Lock():
            rc, out, err, dt = sh(cmd, cwd=HARNESS, timeout=3600)
        self.notes["cargo_build_s" + ("_release" if release else "")] = round(dt, 1)
        if rc != 0:
            open(os.path.join(self.work, "cargo.log"), "w").write(out + err)
            tail = "\n".join((out + err).splitlines()[-30:])
            raise BuildError("cargo build failed:\n" + tail)

    def harness_bin(self, name, release=False):
        return os.path.join(HARNESS, "target", "release" if release else "debug", name)

    def run_model(self, component, lines, timeout=1200, args=()):
        return run_lines([MODEL_EXE, component, *args], lines, timeout)

    def run_impl(self, bin, lines, timeout=1200, release=False, args=()):
        return run_lines([self.harness_bin(bin, release), *args], lines, timeout)

    # ---- finishing --------------------------------------------------------------------------
    def finish(self, level="proof"):
        """proof obligations that failed without a concrete failing input become a violation
        ending in no-failing-input-found (unless a concrete violation was already reported)."""
        if self.failed_obligations:
            concrete = any(not nf for _, nf in self.violations)
            self.violation("proof-or-correspondence-broken",
                           {"unchecked": self.failed_obligations[:40]},
                           {"theorems_or_correspondence_no_longer_checking": self.failed_obligations[:40]},
                           no_failing_input=not concrete)
        self.cov["distinct_nontrivial"] = len(self.distinct)
        cov = dict(self.cov)
        cov.update({"obligations": self.obligations, "discharged": self.discharged,
                    "checker_cmd": self.checker_cmd, "trusted_base": TRUSTED_BASE,
                    "theorems": self.theorems, "input_distribution": self.dist,
                    "failed_obligations": self.failed_obligations[:40],
                    "known_findings_hit": self.known_hits, "notes": self.notes})
        ev = {"property_id": self.prop, "tier": self.tier, "seed": self.seed, "level": level,
              "coverage": cov, "assumptions": self.assumptions,
              "wall_s": round(time.time() - self.t0, 2), "violations": len(self.violations)}
        json.dump(ev, open(os.path.join(EVID, f"{self.prop}.json"), "w"), indent=1, default=str)
        print(f"[{self.prop} {self.tier}] obligations {self.discharged}/{self.obligations} "
              f"cases {cov['evaluations']} distinct {cov['distinct_nontrivial']} "
              f"violations {len(self.violations)} known {len(self.known_hits)} "
              f"wall {ev['wall_s']}s", flush=True)
        return 1 if self.violations else 0


class BuildError(Exception):
    pass


def run_lines(cmd, lines, timeout=1200):
    """feed lines to a line-protocol process, return (list of output lines, rc, stderr tail)"""
    data = "".join(l + "\n" for l in lines)
    try:
        p = subprocess.run(cmd, input=data, capture_output=True, text=True, timeout=timeout)
        so = p.stdout
        if p.returncode != 0:
            so = so[:so.rfind("\n") + 1]
        return so.splitlines(), p.returncode, p.stderr[-2000:]
    except subprocess.TimeoutExpired as e:
        out = e.stdout.decode() if isinstance(e.stdout, bytes) else (e.stdout or "")
        out = out[:out.rfind("\n") + 1]           # complete lines only
        return out.splitlines(), -999, "timeout"


def run_lines_robust(cmd, lines, per_line_timeout=20.0, batch=200, floor=60.0):
    """like run_lines, but a hang, crash or abort inside one line does not lose the others: the
    input is processed in batches under a deadline and a failing batch is bisected. Lines that
    kill or hang the process get the answers 'crash rc=<n>' / 'hang'."""
    out = [None] * len(lines)

    def go(lo, hi):
        if lo >= hi:
            return
        chunk = lines[lo:hi]
        to = max(floor if hi - lo > 1 else per_line_timeout, per_line_timeout * 0.05 * (hi - lo))
        res, rc, err = run_lines(cmd, chunk, timeout=to)
        if rc == 0 and len(res) == len(chunk):
            out[lo:hi] = res
            return
        if hi - lo == 1:
            out[lo] = "hang" if rc == -999 else f"crash rc={rc} {err.strip().splitlines()[-1][:200] if err.strip() else ''}"
            return
        # answers before the failure point are valid
        good = len(res) if rc != -999 else max(0, len(res) - 0)
        good = min(good, hi - lo - 1)
        out[lo:lo + good] = res[:good]
        go(lo + good, lo + good + 1)
        go(lo + good + 1, hi)

    for i in range(0, len(lines), batch):
        go(i, min(len(lines), i + batch))
    return out


def first_diff(a, b):
    for i, (x, y) in enumerate(zip(a, b)):
        if x != y:
            return i
    if len(a) != len(b):
        return min(len(a), len(b))
    return None


def shrink_list(items, fails, max_steps=400):
    """delta-debugging style reduction of a list while `fails(list)` stays true"""
    steps = 0
    n = 2
    cur = list(items)
    while len(cur) >= 2 and steps < max_steps:
        chunk = max(1, len(cur) // n)
        reduced = False
        for i in range(0, len(cur), chunk):
            cand = cur[:i] + cur[i + chunk:]
            steps += 1
            if cand and fails(cand):
                cur = cand
                n = max(n - 1, 2)
                reduced = True
                break
            if steps >= max_steps:
                break
        if not reduced:
            if chunk == 1:
                break
            n = min(n * 2, len(cur))
    return cur
