#!/bin/bash
# usage: tools/agent_setup.sh <name>   -> private copy of /verif and a worktree of /repo under /tmp/ag-<name>
set -e
N=$1
D=/tmp/ag-$N
mkdir -p $D
rsync -a --exclude harness/target --exclude work --exclude evidence/replay /verif/ $D/verif/
git -C /repo worktree add --detach $D/repo HEAD >/dev/null 2>&1
sed -i "s#/repo/crates#$D/repo/crates#g" $D/verif/harness/Cargo.toml
sed -i "s#REPO = \"/repo\"#REPO = \"$D/repo\"#" $D/verif/tools/vlib.py
echo "ready: $D/verif (framework copy), $D/repo (worktree of /repo HEAD)"
