#!/bin/bash
# usage: proc_one.sh <prop-lower> <X> <ident>
p=$1; X=$2; id=$3; L=/tmp/proc-$p.log
echo "== confirm(again) $id" >> $L
(cd /verif && python3 tools/confirm_mutant.py /tmp/mut3-$p/$X $id) >> $L 2>&1
if [ -f /verif/seeded/$id/meta.json ]; then (cd /verif && python3 tools/run_seeded_slot.py $p seeded/$id) >> $L 2>&1; fi
echo "== done" >> $L
