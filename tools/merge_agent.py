#!/usr/bin/env python3
"""merge an agent copy's shared-file additions: CLAIMED entries, Main.lean imports/arms, known_findings"""
import json, re, sys
name = sys.argv[1]
S = f"/tmp/ag-{name}/verif"
# CLAIMED entries
src = open(f"{S}/tools/gen_manifest.py").read()
dst = open("/verif/tools/gen_manifest.py").read()
for m in re.finditer(r'(?m)^ "(C\d+)": \((?:.|\n)*?\n\s+"DESIGN\.md[^\n]*\),\n', src):
    pid = m.group(1)
    if f'\n "{pid}": (' not in dst:
        dst = dst.replace("}\nNOT_YET =", m.group(0).lstrip("\n") + "}\nNOT_YET =")
        print("added CLAIMED", pid)
open("/verif/tools/gen_manifest.py", "w").write(dst)
# Main.lean
src = open(f"{S}/lean/Main.lean").read()
dst = open("/verif/lean/Main.lean").read()
for l in src.splitlines():
    if l.startswith("import ") and l not in dst:
        dst = dst.replace("\ndef main", l + "\n\ndef main", 1) if "\n\ndef main" not in dst else dst.replace("\n\ndef main", "\n" + l + "\n\ndef main", 1)
        print("added", l)
    if l.strip().startswith("| [") and l.strip() not in dst and "usage" not in l:
        dst = dst.replace("  | _ => IO.eprintln", l + "\n  | _ => IO.eprintln", 1)
        print("added arm", l.strip()[:60])
open("/verif/lean/Main.lean", "w").write(dst)
# known findings
try:
    ks = json.load(open(f"{S}/known_findings.json"))
    kd = json.load(open("/verif/known_findings.json"))
    for sec in ("known", "fixed"):
        for e in ks.get(sec, []):
            if not any(e.get("what") == x.get("what") for x in kd[sec]):
                kd[sec].append(e); print("added", sec, e.get("key", e.get("what", ""))[:70])
    json.dump(kd, open("/verif/known_findings.json", "w"), indent=1)
except FileNotFoundError:
    pass
