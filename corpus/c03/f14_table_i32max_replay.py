"""F14 replay: a valid 31-bit grey 3x1 Modular image whose MA tree is a chain on property 7 (W)
with root value i32::MAX. Before /repo f9ead7c `try_compile_to_table` left table entry `ub - lb` at 0
and `FlatMaTree::get_leaf` looped forever once W = i32::MAX (witness on the old fill:
C03_unrepaired_table_wrong_at_i32max; observed: no answer in 20 s). From f9ead7c on the witness
decodes to its pixels and the model decoder agrees (C03_flatten_eq_eval covers it).
Run from the verif root after `lake build jxlmodel` and `cargo build --bin img`:
    python3 corpus/c03/f14_table_i32max_replay.py
The controls (pixels below i32::MAX; root value i32::MAX - 1) decode before and after the repair."""
import os, subprocess, sys
VERIF = os.path.dirname(os.path.dirname(os.path.dirname(os.path.abspath(__file__))))
sys.path.insert(0, os.path.join(VERIF, "tools"))
import planlib as pl
M = 2**31 - 1
MODEL = os.path.join(VERIF, "lean", ".lake", "build", "bin", "jxlmodel")
IMG = os.path.join(VERIF, "harness", "target", "debug", "img")


def plan(rootval, pix, prop=7):
    L = lambda k: ("L", k, 0, 0, 1)
    tree = ("D", prop, rootval, L(0),
            ("D", prop, M - 1, L(1), ("D", prop, M - 2, L(2), ("D", prop, M - 3, L(3), L(4)))))
    img = {"w": len(pix), "h": 1, "bits": 31, "gray": True, "buf16": False, "ecs": []}
    frame = {"gshift": 1, "chans": [(len(pix), 1, pix)], "tr": [], "pals": [], "tree": tree,
             "wp": None, "ent": 0}
    return pl.plan_line(img, [frame])


for name, rootval, pix in [("witness root=i32::MAX W=i32::MAX", M, [M, M, 5]),
                           ("control root=i32::MAX W<i32::MAX", M, [M - 1, M - 2, 5]),
                           ("control root=i32::MAX-1 W=i32::MAX", M - 1, [M, M, 5])]:
    e = subprocess.run([MODEL, "enc"], input=plan(rootval, pix) + "\n", capture_output=True,
                       text=True, timeout=120).stdout.strip()
    hexs, frames = pl.parse_enc_output(e)
    print(name, "| codestream", hexs, "| model decoder", frames[0]["model"])
    try:
        d = subprocess.run([IMG], input=f"decode {hexs}\n", capture_output=True, text=True, timeout=20)
        print("   real decoder:", d.stdout.strip()[:200])
    except subprocess.TimeoutExpired:
        print("   real decoder: HANG (no answer in 20 s)")
